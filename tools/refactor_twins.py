#!/usr/bin/env python3
"""tools/refactor_twins.py MODE [Cxx ...] — robustness probe (development aid, not a registered check).
Behaviour-preserving refactorings applied function by function to the anchored files of each property; every twin is analysed as an
in-memory overlay, and a rule that raises a NEW finding (false alarm) or an analysis error (cannot decide) is reported.
MODES
  ret-temp     `return <expr>`           ->  `_ret_k = <expr>` ; `return _ret_k`
  attr-temp    `<obj>.<f> = <expr>`      ->  `_val_k = <expr>` ; `<obj>.<f> = _val_k`        (single-target stores only)
  not-swap     `if C: A else: B`         ->  `if not (C): B else: A`                        (plain if/else with a non-empty else that is not an elif chain)
  swap-indep   `a = E1 ; b = E2`         ->  `b = E2 ; a = E1`                              (adjacent call-free assignments to locals that do not mention each other)
  cmp-flip     `a == b` / `a != b` / `a < b` ... ->  `b == a` / `b != a` / `b > a` ...      (two-operand comparisons; `in` / `is` untouched)
  kw-reorder   `f(x, a=1, b=2)`          ->  `f(x, b=2, a=1)`                               (keyword arguments reversed; no **kwargs in the call; pure argument expressions)
  else-wrap    `if C: ...; return` ; rest ->  `if C: ...; return` `else:` rest               (if without else whose body ends in return / raise / continue / break)
  else-unwrap  `if C: ...; return` `else:` rest  ->  `if C: ...; return` ; rest              (the inverse; else that is not an elif chain)
"""
import ast, os, sys
from concurrent.futures import ProcessPoolExecutor
sys.path.insert(0, os.path.dirname(os.path.dirname(os.path.abspath(__file__))))
import warnings; warnings.filterwarnings("ignore")
from sa.core import Repo
from sa import cli
from sa.rules import shared


class RetTemp(ast.NodeTransformer):
    def __init__(self): self.k = 0; self.depth = 0
    def visit_FunctionDef(self, n):
        self.depth += 1
        if self.depth > 1:
            self.depth -= 1
            return n
        self.generic_visit(n); self.depth -= 1
        return n
    def visit_Lambda(self, n): return n
    def visit_Return(self, n):
        if n.value is None or isinstance(n.value, (ast.Name, ast.Constant)):
            return n
        self.k += 1
        nm = f"_ret_{self.k}"
        return [ast.Assign(targets=[ast.Name(id=nm, ctx=ast.Store())], value=n.value, lineno=n.lineno, col_offset=n.col_offset), ast.Return(value=ast.Name(id=nm, ctx=ast.Load()))]


class AttrTemp(RetTemp):
    def visit_Return(self, n): return n
    def visit_Assign(self, n):
        if len(n.targets) == 1 and isinstance(n.targets[0], ast.Attribute) and not isinstance(n.value, (ast.Name, ast.Constant)):
            self.k += 1
            nm = f"_val_{self.k}"
            return [ast.Assign(targets=[ast.Name(id=nm, ctx=ast.Store())], value=n.value, lineno=n.lineno, col_offset=n.col_offset),
                    ast.Assign(targets=n.targets, value=ast.Name(id=nm, ctx=ast.Load()), lineno=n.lineno, col_offset=n.col_offset)]
        return n


class NotSwap(RetTemp):
    def visit_Return(self, n): return n
    def visit_If(self, n):
        self.generic_visit(n)
        if n.orelse and not (len(n.orelse) == 1 and isinstance(n.orelse[0], ast.If)):
            self.k += 1
            return ast.If(test=ast.UnaryOp(op=ast.Not(), operand=n.test), body=n.orelse, orelse=n.body)
        return n


PURE_CALLS = {"len", "list", "set", "tuple", "sorted", "dict", "range", "frozenset", "str", "int", "float", "bool", "max", "min", "sum", "zip", "enumerate", "reversed"}


def _pure(e):
    for n in ast.walk(e):
        if isinstance(n, ast.Call) and not (isinstance(n.func, ast.Name) and n.func.id in PURE_CALLS):
            return False
        if isinstance(n, (ast.Yield, ast.YieldFrom, ast.Await, ast.NamedExpr)):
            return False
    return True


def _names(e, ctx):
    return {n.id for n in ast.walk(e) if isinstance(n, ast.Name) and isinstance(n.ctx, ctx)}


class SwapIndep(RetTemp):
    """swap two adjacent assignments to plain local names whose right-hand sides are call-free (or call only pure builtins) and that do not mention each other's targets"""
    def visit_Return(self, n): return n

    def _swap(self, body):
        i = 0
        while i + 1 < len(body):
            a, b = body[i], body[i + 1]
            if all(isinstance(x, ast.Assign) and len(x.targets) == 1 and isinstance(x.targets[0], ast.Name) and _pure(x.value) for x in (a, b)):
                ta, tb = a.targets[0].id, b.targets[0].id
                if ta != tb and ta not in _names(b.value, ast.Load) and tb not in _names(a.value, ast.Load):
                    body[i], body[i + 1] = b, a
                    self.k += 1
                    i += 2
                    continue
            i += 1

    def generic_visit(self, node):
        super().generic_visit(node)
        for fld in ("body", "orelse", "finalbody"):
            blk = getattr(node, fld, None)
            if isinstance(blk, list) and blk and isinstance(blk[0], ast.stmt):
                self._swap(blk)
        return node

    def visit_FunctionDef(self, n):
        self.depth += 1
        if self.depth > 1:
            self.depth -= 1
            return n
        self.generic_visit(n); self.depth -= 1
        return n


FLIP = {ast.Eq: ast.Eq, ast.NotEq: ast.NotEq, ast.Lt: ast.Gt, ast.Gt: ast.Lt, ast.LtE: ast.GtE, ast.GtE: ast.LtE}


class CmpFlip(RetTemp):
    def visit_Return(self, n):
        self.generic_visit(n); return n
    def visit_Compare(self, n):
        self.generic_visit(n)
        if len(n.ops) == 1 and type(n.ops[0]) in FLIP and _pure(n.left) and _pure(n.comparators[0]):
            self.k += 1
            return ast.Compare(left=n.comparators[0], ops=[FLIP[type(n.ops[0])]()], comparators=[n.left])
        return n


class KwReorder(RetTemp):
    def visit_Return(self, n):
        self.generic_visit(n); return n
    def visit_Call(self, n):
        self.generic_visit(n)
        if len(n.keywords) >= 2 and all(k.arg is not None and _pure(k.value) for k in n.keywords):
            self.k += 1
            n.keywords = list(reversed(n.keywords))
        return n


def _exits(body):
    return bool(body) and isinstance(body[-1], (ast.Return, ast.Raise, ast.Continue, ast.Break))


class ElseWrap(RetTemp):
    def visit_Return(self, n): return n
    def _wrap(self, body):
        for i, st in enumerate(body):
            if isinstance(st, ast.If) and not st.orelse and _exits(st.body) and i + 1 < len(body):
                st.orelse = body[i + 1:]
                del body[i + 1:]
                self.k += 1
                self._wrap(st.orelse)
                return
    def generic_visit(self, node):
        for fld in ("body", "orelse", "finalbody"):
            blk = getattr(node, fld, None)
            if isinstance(blk, list) and blk and isinstance(blk[0], ast.stmt):
                self._wrap(blk)
        super().generic_visit(node)
        return node
    def visit_FunctionDef(self, n):
        self.depth += 1
        if self.depth > 1:
            self.depth -= 1
            return n
        self.generic_visit(n); self.depth -= 1
        return n


class ElseUnwrap(ElseWrap):
    def _wrap(self, body):
        i = 0
        while i < len(body):
            st = body[i]
            if isinstance(st, ast.If) and st.orelse and _exits(st.body) and not (len(st.orelse) == 1 and isinstance(st.orelse[0], ast.If)):
                rest = st.orelse
                st.orelse = []
                body[i + 1:i + 1] = rest
                self.k += 1
            i += 1


MODES = {"ret-temp": RetTemp, "attr-temp": AttrTemp, "not-swap": NotSwap, "swap-indep": SwapIndep, "cmp-flip": CmpFlip, "kw-reorder": KwReorder, "else-wrap": ElseWrap, "else-unwrap": ElseUnwrap}


def transform(src, fn_node, mode):
    """re-emit the module with fn_node's body transformed; only that function's lines are replaced"""
    import copy
    new_fn = copy.deepcopy(fn_node)
    tr = MODES[mode]()
    new_fn = tr.visit(new_fn)
    if tr.k == 0:
        return None
    ast.fix_missing_locations(new_fn)
    lines = src.split("\n")
    start = (fn_node.decorator_list[0].lineno if fn_node.decorator_list else fn_node.lineno) - 1
    end = fn_node.end_lineno
    indent = " " * fn_node.col_offset
    text = ast.unparse(new_fn)
    text = "\n".join(indent + l if l else l for l in text.split("\n"))
    out = "\n".join(lines[:start] + [text] + lines[end:])
    try:
        ast.parse(out)
    except SyntaxError:
        return None
    return out


def job(args):
    prop, rel, qual, newsrc, base = args
    try:
        repo = Repo(overlay={rel: newsrc})
        reports = cli.run_property(prop, repo)
    except Exception as e:
        return (prop, rel, qual, "crash", str(e)[:200])
    new, errs = [], []
    for r in reports:
        if r.error:
            errs.append(r.error[:160])
        for f in r.findings:
            if list(f.key()) not in base:
                new.append(f"{f.rule}: {f.message[:140]}")
    return (prop, rel, qual, "ok", {"new": new, "errors": errs})


def main():
    mode = sys.argv[1]
    props = sys.argv[2:] or ["C%02d" % i for i in range(1, 21)]
    repo = Repo()
    jobs = []
    for prop in props:
        base_reports = cli.run_property(prop, repo)
        base = [list(f.key()) for r in base_reports for f in r.findings]
        for rel in shared.anchor_files(prop):
            if rel not in repo.modules:
                continue
            m = repo.modules[rel]
            funcs = list(m.functions.values()) + [x for c in m.classes.values() for x in c.methods.values()]
            for f in funcs:
                ns = transform(m.src, f.node, mode)
                if ns is None or ns == m.src:
                    continue
                jobs.append((prop, rel, f.qual, ns, base))
    print(len(jobs), mode, "twins")
    fa = cd = 0
    with ProcessPoolExecutor(16) as ex:
        for prop, rel, qual, st, payload in ex.map(job, jobs, chunksize=4):
            if st == "crash":
                print("CRASH", prop, rel, qual, payload); continue
            if payload["new"]:
                fa += 1; print("FALSE-ALARM", prop, qual, payload["new"][:2])
            elif payload["errors"]:
                cd += 1; print("CANNOT-DECIDE", prop, qual, payload["errors"][:1])
    print(f"summary: {len(jobs)} {mode} twins, {fa} false alarms, {cd} cannot-decide")


if __name__ == "__main__":
    main()
