#!/usr/bin/env python3
"""tools/auto_mutants.py [Cxx ...] [--max N] [--list] — mutation-coverage probe (development aid, not a registered check).
Applies generic mutation operators to every function that a property's rules actually look at (the anchored files), analyses each
mutant as an in-memory overlay with that property's rules and reports the detection rate plus the undetected mutants for triage.
Operators (all almost always behaviour-changing):
  neg-if      if C: ...            -> if not (C): ...
  drop-store  obj.f = E / obj[k] = E / call statement   -> pass
  swap-args   f(a, b, ...)         -> f(b, a, ...)        (two different plain names / attributes)
  flip-const  kw=True/False, axis=0/1, inplace flags, [1:] <-> [:-1], 0 <-> 1 in subscripts
An undetected mutant is not necessarily a miss (it may lie outside the clauses the property claims, or be equivalent); the list is for reading."""
import ast, copy, os, random, sys
from concurrent.futures import ProcessPoolExecutor
sys.path.insert(0, os.path.dirname(os.path.dirname(os.path.abspath(__file__))))
import warnings; warnings.filterwarnings("ignore")
from sa.core import Repo
from sa import cli
from sa.rules import shared


def sites(fn):
    """yield (operator, description, mutate(copy_of_fn) -> bool)"""
    idx = {id(n): i for i, n in enumerate(ast.walk(fn))}

    def nth(root, i):
        for j, n in enumerate(ast.walk(root)):
            if j == i:
                return n

    for n in ast.walk(fn):
        i = idx[id(n)]
        if isinstance(n, ast.If):
            def m(root, i=i):
                x = nth(root, i); x.test = ast.UnaryOp(op=ast.Not(), operand=x.test); return True
            yield ("neg-if", f"L{n.lineno}: if {ast.unparse(n.test)[:50]}", m)
        if isinstance(n, ast.Assign) and len(n.targets) == 1 and isinstance(n.targets[0], (ast.Attribute, ast.Subscript)):
            def m(root, i=i):
                x = nth(root, i); par = getattr(x, "_p", None)
                return _replace_stmt(root, x, ast.Pass())
            yield ("drop-store", f"L{n.lineno}: {ast.unparse(n)[:60]}", m)
        if isinstance(n, ast.Expr) and isinstance(n.value, ast.Call):
            def m(root, i=i):
                x = nth(root, i)
                return _replace_stmt(root, x, ast.Pass())
            yield ("drop-store", f"L{n.lineno}: {ast.unparse(n)[:60]}", m)
        if isinstance(n, ast.Call) and len(n.args) >= 2 and all(isinstance(a, (ast.Name, ast.Attribute)) for a in n.args[:2]) and ast.dump(n.args[0]) != ast.dump(n.args[1]):
            def m(root, i=i):
                x = nth(root, i); x.args[0], x.args[1] = x.args[1], x.args[0]; return True
            yield ("swap-args", f"L{n.lineno}: {ast.unparse(n)[:60]}", m)
        if isinstance(n, ast.keyword) and isinstance(n.value, ast.Constant) and isinstance(n.value.value, bool):
            def m(root, i=i):
                x = nth(root, i); x.value = ast.Constant(value=not x.value.value); return True
            yield ("flip-const", f"L{n.value.lineno}: {n.arg}={n.value.value}", m)
        if isinstance(n, ast.keyword) and n.arg == "axis" and isinstance(n.value, ast.Constant) and n.value.value in (0, 1):
            def m(root, i=i):
                x = nth(root, i); x.value = ast.Constant(value=1 - x.value.value); return True
            yield ("flip-const", f"L{n.value.lineno}: axis={n.value.value}", m)
        if isinstance(n, ast.Subscript) and isinstance(n.slice, ast.Slice) and n.slice.lower is not None and isinstance(n.slice.lower, ast.Constant) and n.slice.lower.value == 1 \
                and n.slice.upper is None and n.slice.step is None:
            def m(root, i=i):
                x = nth(root, i); x.slice = ast.Slice(lower=None, upper=ast.UnaryOp(op=ast.USub(), operand=ast.Constant(value=1)), step=None); return True
            yield ("flip-const", f"L{n.lineno}: {ast.unparse(n)[:50]} -> [:-1]", m)
        if isinstance(n, ast.Subscript) and isinstance(n.slice, ast.Constant) and n.slice.value in (0, 1) and isinstance(n.ctx, ast.Load):
            def m(root, i=i):
                x = nth(root, i); x.slice = ast.Constant(value=1 - x.slice.value); return True
            yield ("flip-const", f"L{n.lineno}: {ast.unparse(n)[:50]} index 0<->1", m)


def _replace_stmt(root, old, new):
    for parent in ast.walk(root):
        for fld in ("body", "orelse", "finalbody"):
            blk = getattr(parent, fld, None)
            if isinstance(blk, list):
                for k, st in enumerate(blk):
                    if st is old:
                        blk[k] = ast.copy_location(new, old)
                        return True
    return False


def emit(src, fn_node, new_fn):
    ast.fix_missing_locations(new_fn)
    lines = src.split("\n")
    start = (fn_node.decorator_list[0].lineno if fn_node.decorator_list else fn_node.lineno) - 1
    end = fn_node.end_lineno
    indent = " " * fn_node.col_offset
    text = "\n".join(indent + l if l else l for l in ast.unparse(new_fn).split("\n"))
    out = "\n".join(lines[:start] + [text] + lines[end:])
    try:
        ast.parse(out)
    except SyntaxError:
        return None
    return out


def job(args):
    prop, rel, qual, op, desc, newsrc, base = args
    try:
        repo = Repo(overlay={rel: newsrc})
        reports = cli.run_property(prop, repo)
    except Exception as e:
        return (prop, rel, qual, op, desc, "crash")
    new = [f.rule for r in reports for f in r.findings if list(f.key()) not in base]
    errs = [r.rule for r in reports if r.error]
    return (prop, rel, qual, op, desc, "detected" if new else ("cannot-decide" if errs else "silent"))


def main():
    argv = sys.argv[1:]
    mx = 400
    if "--max" in argv:
        mx = int(argv[argv.index("--max") + 1]); del argv[argv.index("--max"):argv.index("--max") + 2]
    show = "--list" in argv
    argv = [a for a in argv if a != "--list"]
    props = argv or ["C%02d" % i for i in range(1, 21)]
    repo = Repo()
    rnd = random.Random(1)
    jobs = []
    for prop in props:
        base_reports = cli.run_property(prop, repo)
        base = [list(f.key()) for r in base_reports for f in r.findings]
        # functions the rules of this property mention in their observations / findings (the ones they actually look at)
        looked = set()
        for r in base_reports:
            for inst in r.instances:
                looked.add(inst)
        cand = []
        for rel in shared.anchor_files(prop):
            if rel not in repo.modules:
                continue
            m = repo.modules[rel]
            funcs = list(m.functions.values()) + [x for c in m.classes.values() for x in c.methods.values()]
            for f in funcs:
                short = f.qual.split(".")[-1]
                if not any(short in inst for inst in looked):
                    continue
                orig = ast.parse(m.src)  # un-canonicalised tree for emitting
                fn0 = next((n for n in ast.walk(orig) if isinstance(n, ast.FunctionDef) and n.name == f.node.name and n.lineno == f.node.lineno), None)
                if fn0 is None:
                    continue
                for op, desc, mut in sites(fn0):
                    cand.append((rel, f.qual, fn0, op, desc, mut, m.src))
        rnd.shuffle(cand)
        for rel, qual, fn0, op, desc, mut, src in cand[:mx]:
            new_fn = copy.deepcopy(fn0)
            if not mut(new_fn):
                continue
            ns = emit(src, fn0, new_fn)
            if ns is None or ns == src:
                continue
            jobs.append((prop, rel, qual, op, desc, ns, base))
    print(len(jobs), "mutants")
    stats = {}
    silent = []
    with ProcessPoolExecutor(int(os.environ.get("JOBS", "8"))) as ex:
        for prop, rel, qual, op, desc, st in ex.map(job, jobs, chunksize=4):
            d = stats.setdefault(prop, {}).setdefault(op, {"detected": 0, "silent": 0, "cannot-decide": 0, "crash": 0})
            d[st] += 1
            if st != "detected":
                silent.append((prop, qual, op, desc, st))
    for prop in sorted(stats):
        tot = {k: sum(v[k] for v in stats[prop].values()) for k in ("detected", "silent", "cannot-decide", "crash")}
        n = sum(tot.values())
        print(f"{prop}: {n} mutants, detected {tot['detected']} ({100 * tot['detected'] // max(n, 1)}%), cannot-decide {tot['cannot-decide']}, silent {tot['silent']}, crash {tot['crash']}  " +
              " ".join(f"{op}:{v['detected']}/{sum(v.values())}" for op, v in sorted(stats[prop].items())))
    if show:
        for s in sorted(silent):
            print("  NOT-DETECTED", *s)


if __name__ == "__main__":
    main()
