#!/usr/bin/env python3
"""print a python file with docstrings removed, keeping original line numbers"""
import ast,sys
src=open(sys.argv[1]).read()
lines=src.split('\n')
t=ast.parse(src)
kill=set()
for n in ast.walk(t):
    if isinstance(n,(ast.FunctionDef,ast.ClassDef,ast.Module,ast.AsyncFunctionDef)):
        b=n.body
        if b and isinstance(b[0],ast.Expr) and isinstance(b[0].value,ast.Constant) and isinstance(b[0].value.value,str):
            for i in range(b[0].lineno,b[0].end_lineno+1): kill.add(i)
lo=int(sys.argv[2]) if len(sys.argv)>2 else 1
hi=int(sys.argv[3]) if len(sys.argv)>3 else len(lines)
for i,l in enumerate(lines,1):
    if i<lo or i>hi: continue
    if i in kill: continue
    if not l.strip(): continue
    print(f"{i}\t{l}")
