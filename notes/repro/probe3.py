import warnings, logging
warnings.filterwarnings("ignore"); logging.disable(logging.CRITICAL)
import numpy as np, pandas as pd
from pgmpy.factors.discrete import TabularCPD, DiscreteFactor
from pgmpy.factors import FactorSet
from pgmpy.models import BayesianNetwork, MarkovNetwork, NaiveBayes, DynamicBayesianNetwork as DBN
from pgmpy.base import DAG
from pgmpy.inference import VariableElimination, BeliefPropagation
def t(name, f):
    try: print(name, '->', f())
    except Exception as e: print(name, 'EXC', type(e).__name__, str(e)[:100])
def mk():
    m = BayesianNetwork([('A','B'),('B','C'),('A','D')])
    m.add_cpds(TabularCPD('A',2,[[.3],[.7]]), TabularCPD('B',2,[[.2,.6],[.8,.4]],['A'],[2]), TabularCPD('C',2,[[.1,.5],[.9,.5]],['B'],[2]), TabularCPD('D',2,[[.1,.5],[.9,.5]],['A'],[2]))
    return m
def e1():
    bp=BeliefPropagation(mk())
    try: bp.query(['B'], evidence={'A': 7}, show_progress=False)
    except Exception as ex: print('  first query raised', type(ex).__name__)
    return sorted(bp.model.nodes()), bp.query(['C'], show_progress=False).values
t('BP-exc-exit', e1)
def e2():
    nb=NaiveBayes(['f1','f2'],'y'); return nb.is_dconnected('f1','f2')
t('NaiveBayes.is_dconnected', e2)
def e2b():
    nb=NaiveBayes(['f1','f2'],'y')
    nb.add_cpds(TabularCPD('y',2,[[.5],[.5]]),TabularCPD('f1',2,[[.2,.6],[.8,.4]],['y'],[2]),TabularCPD('f2',2,[[.2,.6],[.8,.4]],['y'],[2]))
    return VariableElimination(nb).query(['f1'],evidence={'f2':0},show_progress=False).values
t('NaiveBayes VE', e2b)
def e3():
    a=DiscreteFactor(['x'],[2],[1,2]); b=DiscreteFactor(['y'],[2],[3,4])
    s1=FactorSet(a); s2=FactorSet(b); n0=len(s1.factors); r=s1*s2
    return r, n0, len(s1.factors)
t('FactorSet.__mul__', e3)
def e4():
    mn=MarkovNetwork([(0,1)]); mn.add_factors(DiscreteFactor([0,1],[2,3],range(6)))
    return mn.get_cardinality(0), mn.get_cardinality(1), len(mn.get_factors(0))
t('MN falsy node', e4)
def e5():
    g=DAG([(0,1),(1,2)]); return g.is_dconnected(0,2,observed=1), DAG([(1,0),(0,2)]).is_dconnected(1,2,observed=0), DAG([(1,0),(0,2)]).is_dconnected(1,2,observed=[0])
t('observed falsy', e5)
def e6():
    d=DBN(); d.add_edges_from([(('D',0),('D',1)),(('G',0),('D',0))])
    d.add_cpds(TabularCPD(('G',0),3,[[.2],[.3],[.5]]), TabularCPD(('D',0),2,[[.1,.2,.3],[.9,.8,.7]],[('G',0)],[3]),
               TabularCPD(('D',1),2,[[.2,.3,.4,.5,.6,.7],[.8,.7,.6,.5,.4,.3]],[('D',0),('G',1)],[2,3]))
    d.initialize_initial_state(); return [c for c in d.cpds]
t('DBN init card3 root', e6)
def e7():
    d=DBN(); d.add_edges_from([(('D',0),('D',1))])
    d.add_cpds(TabularCPD(('D',0),2,[[.2],[.8]],state_names={('D',0):['lo','hi']}), TabularCPD(('D',1),2,[[.1,.2],[.9,.8]],[('D',0)],[2],state_names={('D',1):['lo','hi'],('D',0):['lo','hi']}))
    bn=d.get_constant_bn(); return bn.get_cpds('D_0').state_names
t('DBN const bn names', e7)
