import warnings, logging
warnings.filterwarnings("ignore")
logging.disable(logging.CRITICAL)
import numpy as np, pandas as pd
from pgmpy.factors.discrete import TabularCPD, DiscreteFactor
from pgmpy.models import BayesianNetwork, MarkovNetwork
from pgmpy.base import DAG
from pgmpy.inference import VariableElimination, BeliefPropagation
from pgmpy.independencies import Independencies

def t(name, f):
    try:
        print(name, '->', f())
    except Exception as e:
        print(name, 'EXC', type(e).__name__, e)

# D1 reorder_parents drops state names
def d1():
    c = TabularCPD('g',2,[[.1,.2,.3,.4,.5,.6],[.9,.8,.7,.6,.5,.4]],evidence=['d','i'],evidence_card=[2,3],
                   state_names={'g':['a','b'],'d':['e','h'],'i':['x','y','z']})
    c.reorder_parents(['i','d'])
    return c.state_names
t('D1',d1)
# D2 copy aliases latents
def d2():
    m = BayesianNetwork([('A','B')], latents={'A'})
    c = m.copy(); c.add_node('L', latent=True)
    return m.latents
t('D2',d2)
def mk():
    m = BayesianNetwork([('A','B'),('B','C')])
    m.add_cpds(TabularCPD('A',2,[[.3],[.7]]), TabularCPD('B',2,[[.2,.6],[.8,.4]],['A'],[2]), TabularCPD('C',2,[[.1,.5],[.9,.5]],['B'],[2]))
    return m
def d3():
    m=mk(); ve=VariableElimination(m)
    ve.query(['A'], virtual_evidence=[TabularCPD('B',2,[[.3],[.7]])], show_progress=False)
    return sorted(ve.map_query(show_progress=False)), sorted(VariableElimination(mk()).map_query(show_progress=False))
t('D3-VE',d3)
def d3b():
    m=mk(); bp=BeliefPropagation(m)
    bp.query(['A'], virtual_evidence=[TabularCPD('B',2,[[.3],[.7]])], show_progress=False)
    return sorted(bp.map_query(show_progress=False)), list(bp.model.nodes())
t('D3-BP',d3b)
# D6 iequivalent
def d6():
    g1 = DAG([('X','Z'),('Y','Z'),('W','X'),('W','Y')])
    g2 = DAG([('X','W'),('Y','W'),('Z','X'),('Z','Y')])
    return g1.is_iequivalent(g2), g1.get_immoralities(), g2.get_immoralities(), g1.is_dconnected('X','Y',observed=['W']), g2.is_dconnected('X','Y',observed=['W'])
t('D6',d6)
# D7 contraction with extra vars
def d7():
    ind = Independencies(['X','W',['Y','Z','E']], ['X','Y',['Z']])
    cl = ind.closure()
    from pgmpy.independencies import IndependenceAssertion
    return IndependenceAssertion('X',['W','Y'],['Z']) in cl.get_assertions()
t('D7',d7)
# D8 K2 with card 3 and missing parent configs
def d8():
    from pgmpy.estimators import K2Score
    from scipy.special import gammaln
    df = pd.DataFrame({'A':[0,0,1,1,2,2,0,1], 'B':[0,0,0,0,0,0,0,0], 'C':[0,1,2,0,1,2,0,1]})
    # B has declared states 0,1,2 but only 0 observed
    s = K2Score(df, state_names={'A':[0,1,2],'B':[0,1,2],'C':[0,1,2]})
    got = s.local_score('A',['B'])
    # closed form
    import itertools
    r=3; tot=0
    for b in [0,1,2]:
        sub=df[df.B==b]
        Nj=len(sub)
        tot+= gammaln(r)-gammaln(Nj+r)
        for a in [0,1,2]:
            tot+= gammaln((sub.A==a).sum()+1)
    return got, tot
t('D8',d8)
# D11 LGBN predict two missing
def d11():
    from pgmpy.models import LinearGaussianBayesianNetwork as L
    from pgmpy.factors.continuous import LinearGaussianCPD as C
    m=L([('A','B'),('B','C')])
    m.add_cpds(C('A',[1],1.0), C('B',[0,2],1.0,['A']), C('C',[0,3],2.0,['B']))
    mu,cov=m.to_joint_gaussian()
    data=pd.DataFrame({'A':[0.5,1.0]})
    v,mc,cc=m.predict(data)
    return v, cc.shape, cc
t('D11',d11)
# D5 duplicate factors in MN -> JT
def d5():
    mn=MarkovNetwork([('A','B')])
    f1=DiscreteFactor(['A','B'],[2,2],[1,2,3,4]); f2=DiscreteFactor(['A','B'],[2,2],[1,2,3,4])
    mn.add_factors(f1,f2)
    z=mn.get_partition_function()
    jt=mn.to_junction_tree()
    return z, jt.get_partition_function()
t('D5',d5)
