import warnings, logging, itertools
warnings.filterwarnings("ignore")
logging.disable(logging.CRITICAL)
import numpy as np, pandas as pd, networkx as nx
from pgmpy.factors.discrete import TabularCPD, DiscreteFactor
from pgmpy.models import BayesianNetwork, MarkovNetwork, DynamicBayesianNetwork as DBN
from pgmpy.base import DAG, PDAG
from pgmpy.estimators import PC, HillClimbSearch
def t(name, f):
    try: print(name, '->', f())
    except Exception as e: print(name, 'EXC', type(e).__name__, e)

# D9 PC with oracle: W->X<-Y, X->Z, Y->Z ; W nonadjacent Y, W nonadjacent Z
def d9():
    bad=[]
    base=[('W','X'),('Y','X'),('X','Z'),('Y','Z')]
    for perm in itertools.permutations(['W','X','Y','Z']):
        g=DAG(); g.add_nodes_from(perm); g.add_edges_from(base)
        ind=g.get_independencies()
        est=PC(independencies=ind)
        # force variable order
        est.variables=list(perm)
        pdag=est.estimate(ci_test='independence_match', return_type='pdag', show_progress=False)
        directed={(u,v) for u,v in pdag.edges() if not pdag.has_edge(v,u)}
        dg=nx.DiGraph(list(directed))
        if not nx.is_directed_acyclic_graph(dg) or directed!=set(base):
            bad.append((perm,sorted(directed)))
    return len(bad), bad[:2]
t('D9',d9)
def d9b():
    p=PDAG(directed_ebunch=[('Z','X'),('Z','Y')], undirected_ebunch=[('X','Y')])
    d=p.to_dag(); return sorted(d.edges())
t('D9b',d9b)
# D10 UAI roundtrip
def d10():
    from pgmpy.readwrite import UAIWriter, UAIReader
    m=BayesianNetwork([('A','C'),('B','C')])
    m.add_cpds(TabularCPD('A',2,[[.3],[.7]]),TabularCPD('B',3,[[.2],[.3],[.5]]),
      TabularCPD('C',2,[[.1,.2,.3,.4,.5,.6],[.9,.8,.7,.6,.5,.4]],['A','B'],[2,3]))
    s=str(UAIWriter(m)); r=UAIReader(string=s).get_model()
    c=r.get_cpds('var_2'); return c.variables, c.cardinality, c.get_values()
t('D10-uai',d10)
def d10b():
    from pgmpy.readwrite import UAIWriter, UAIReader
    m=BayesianNetwork([('A','B')])
    m.add_cpds(TabularCPD('A',2,[[1e-12],[1-1e-12]]),TabularCPD('B',2,[[.2,.6],[.8,.4]],['A'],[2]))
    s=str(UAIWriter(m)); print(s); r=UAIReader(string=s).get_model(); return r.get_cpds('var_0').get_values()
t('D10-uai-exp',d10b)
def d10c():
    from pgmpy.readwrite import BIFWriter, BIFReader
    m=BayesianNetwork([('myvariable','B')])
    m.add_cpds(TabularCPD('myvariable',2,[[.3],[.7]],state_names={'myvariable':['a','b']}),TabularCPD('B',2,[[.2,.6],[.8,.4]],['myvariable'],[2],state_names={'B':['x','y'],'myvariable':['a','b']}))
    s=str(BIFWriter(m)); r=BIFReader(string=s,n_jobs=1).get_model(); return sorted(r.nodes())
t('D10-bif',d10c)
# D12 Gibbs generate_sample latents
def d12():
    from pgmpy.sampling import GibbsSampling
    m=BayesianNetwork([('A','B')],latents={'A'})
    m.add_cpds(TabularCPD('A',2,[[.3],[.7]]),TabularCPD('B',2,[[.2,.6],[.8,.4]],['A'],[2]))
    g=GibbsSampling(m); out=list(g.generate_sample(size=2, seed=1)); return out
t('D12',d12)
# D14 fit_update with unsorted parent order
def d14():
    m=BayesianNetwork([('B','C'),('A','C')])
    cA=TabularCPD('A',2,[[.3],[.7]]); cB=TabularCPD('B',3,[[.2],[.3],[.5]])
    vals=np.array([[.1,.2,.3,.4,.5,.6],[.9,.8,.7,.6,.5,.4]])
    cC=TabularCPD('C',2,vals,['B','A'],[3,2])
    m.add_cpds(cA,cB,cC)
    before={(a,b):cC.get_value(C=0,A=a,B=b) for a in range(2) for b in range(3)}
    data=pd.DataFrame({'A':[0,1],'B':[0,1],'C':[0,1]})
    m.fit_update(data, n_prev_samples=10**9)
    c=m.get_cpds('C')
    after={(a,b):c.get_value(C=0,A=a,B=b) for a in range(2) for b in range(3)}
    return {k:(round(float(before[k]),3),round(float(after[k]),3)) for k in before}
t('D14',d14)
def d4():
    df=pd.DataFrame(np.random.RandomState(0).randint(0,2,size=(200,3)),columns=list('ABC'))
    df['C']=df['A']
    s=DAG(); s.add_nodes_from('ABC')
    r=HillClimbSearch(df).estimate(start_dag=s, show_progress=False)
    return sorted(s.edges()), r is s
t('D4',d4)
def d13():
    d=DBN(); d.add_edges_from([(('D',0),('G',0)),(('D',0),('D',1))])
    d.add_cpds(TabularCPD(('D',0),3,[[.2],[.3],[.5]]), TabularCPD(('G',0),2,[[.1,.2,.3],[.9,.8,.7]],[('D',0)],[3]),
               TabularCPD(('D',1),3,[[.2,.3,.4],[.3,.3,.3],[.5,.4,.3]],[('D',0)],[3]))
    d.initialize_initial_state(); return [c for c in d.cpds]
t('D13',d13)
