import warnings, logging
warnings.filterwarnings("ignore"); logging.disable(logging.CRITICAL)
from pgmpy.factors.discrete import TabularCPD
from pgmpy.models import BayesianNetwork
from pgmpy.sampling import GibbsSampling
m=BayesianNetwork([('A','B')]); m.add_cpds(TabularCPD('A',3,[[.3],[.3],[.4]]),TabularCPD('B',3,[[.2,.6,.1],[.5,.2,.1],[.3,.2,.8]],['A'],[3]))
rows=set()
for i in range(8):
    g=GibbsSampling(m); df=g.sample(size=4, seed=7); rows.add(tuple(df.values.ravel()))
print(len(rows), list(rows)[:3])
