#!/bin/sh
# Offline setup: the checks need only a Python interpreter with the standard library (ast).
set -e
cd "$(dirname "$0")"
if [ -x /venv/bin/python ]; then PY=/venv/bin/python; elif command -v python3-vt >/dev/null 2>&1; then PY=python3-vt; else PY=python3; fi
"$PY" -S -E -c "import ast, sys; print('static-analysis setup ok: python', sys.version.split()[0])"
"$PY" -S -E -m compileall -q sa >/dev/null 2>&1 || true
mkdir -p evidence out
