#!/usr/bin/env python3
"""dev helper: run one named self-test variant and print its findings:  tools_mut.py C08 start-down"""
import sys, importlib, json
sys.path.insert(0, '/verif')
import warnings; warnings.filterwarnings("ignore")
from sa.core import Repo, AnalysisError
from sa import cli
prop, name = sys.argv[1], sys.argv[2]
mod = importlib.import_module('sa.rules.' + prop.lower())
m = [x for x in mod.MUTANTS if x['name'] == name][0]
base = Repo()
src = base.modules[m['file']].src
assert src.count(m['old']) == 1, src.count(m['old'])
repo = Repo(overlay={m['file']: src.replace(m['old'], m['new'])})
try:
    for r in cli.run_property(prop, repo):
        for f in r.findings:
            print(f.rule, f.file, f.line, f.message[:200])
except AnalysisError as e:
    print("ANALYSIS-ERROR", e)
